(* EditProofsTree2.v -- C11, part 8 (I_count, tree level), second half: delete_pages refines the abstract deletion.
   On a document that holds a page tree in the plain way ([page_doc], Spec/PageTreeEdit.v):
   * delete_object(p) reaches every node of the tree (the stripped graph keeps every reference other than p), so every
     remaining node is stripped of p ([delete_reaches]);
   * one round of delete_pages' loop ([delete_page_step]) = the abstract [prune p], Counts exact again;
   * the whole loop, with the page numbers read off the ORIGINAL numbering ([delete_pages_tree]). *)
From LV Require Import Base.Bytes Model.Obj Model.DocQ Model.PageTree Model.Traverse Model.Edit Gen.Consts
  Spec.Dfs Spec.DfsCounts Spec.RenumberSpec Spec.PageTreeEdit
  Proofs.RenumberProofsMap Proofs.PageTreeProofs Proofs.EditProofs Proofs.EditProofsTrav Proofs.EditProofsDelete
  Proofs.EditProofsCount Proofs.FilterProofsDict Proofs.EditProofsTree.
From LV Require Proofs.EditProofsRes.

Local Open Scope nat_scope.

(* ---------- page_tree in C12's vocabulary ---------- *)
Lemma lookup_get_dictionary m id d : lookup m id = Some (ODict d) -> get_dictionary m id = Some d.
Proof.
  intro L. unfold get_dictionary, get_object. rewrite L. unfold dereference.
  destruct (N.to_nat DEREF_LIMIT); reflexivity.
Qed.

Lemma get_deref_direct m d k v :
  dict_get d k = Some v -> (forall i g, v <> ORef i g) -> get_deref m d k = Some v.
Proof.
  intros G H. unfold get_deref. rewrite G. unfold dereference.
  destruct v; try (destruct (N.to_nat DEREF_LIMIT); reflexivity). exfalso. exact (H _ _ eq_refl).
Qed.

Lemma get_type_name d n : dict_get d K_Type = Some (OName n) -> get_type d = Some n.
Proof. intro H. unfold get_type. rewrite H. reflexivity. Qed.

Lemma page_tree_represents m :
  (forall t par, page_tree m par t -> represents m t) /\
  (forall f par, Forall (page_tree m par) f -> Forall (represents m) f).
Proof.
  apply ptree_forest_ind.
  - intros i par H. inversion H; subst. eapply RLeaf; [apply lookup_get_dictionary; eassumption|].
    apply get_type_name. assumption.
  - intros i ks Q par H. inversion H; subst.
    eapply RNode; [apply lookup_get_dictionary; eassumption | apply get_type_name; assumption | | eapply Q; eassumption].
    apply get_deref_direct; [assumption | discriminate].
  - constructor.
  - intros k ks P Q par H. inversion H; subst. constructor; [eapply P | eapply Q]; eassumption.
Qed.

Lemma page_tree_counts m :
  (forall t par, page_tree m par t -> counts_exact m t) /\
  (forall f par, Forall (page_tree m par) f -> Forall (counts_exact m) f).
Proof.
  apply ptree_forest_ind.
  - intros i par _. constructor.
  - intros i ks Q par H. inversion H; subst.
    eapply CNode; [apply lookup_get_dictionary; eassumption | | eapply Q; eassumption].
    apply get_deref_direct; [assumption | discriminate].
  - constructor.
  - intros k ks P Q par H. inversion H; subst. constructor; [eapply P | eapply Q]; eassumption.
Qed.

(* what the objects of a page tree are *)
Lemma page_tree_lookup m :
  (forall t par, page_tree m par t -> forall x, In x (ids t) -> exists d, lookup m x = Some (ODict d)) /\
  (forall f par, Forall (page_tree m par) f -> forall x, In x (flat_map ids f) -> exists d, lookup m x = Some (ODict d)).
Proof.
  apply ptree_forest_ind.
  - intros i par H x [<-|[]]. inversion H; subst. eauto.
  - intros i ks Q par H x Hx. inversion H; subst. destruct Hx as [<-|Hx]; [eauto | eapply Q; eassumption].
  - intros par _ x [].
  - intros k ks P Q par H x Hx. inversion H; subst. cbn [flat_map] in Hx. apply in_app_iff in Hx.
    destruct Hx; [eapply P | eapply Q]; eassumption.
Qed.

Lemma page_tree_nodes m :
  (forall t par, page_tree m par t -> forall x, In x (nodes t) ->
     exists d, lookup m x = Some (ODict d) /\ dict_get d K_Type = Some (OName K_Pages)) /\
  (forall f par, Forall (page_tree m par) f -> forall x, In x (flat_map nodes f) ->
     exists d, lookup m x = Some (ODict d) /\ dict_get d K_Type = Some (OName K_Pages)).
Proof.
  apply ptree_forest_ind.
  - intros i par _ x [].
  - intros i ks Q par H x Hx. inversion H; subst. destruct Hx as [<-|Hx]; [eauto | eapply Q; eassumption].
  - intros par _ x [].
  - intros k ks P Q par H x Hx. inversion H; subst. cbn [flat_map] in Hx. apply in_app_iff in Hx.
    destruct Hx; [eapply P | eapply Q]; eassumption.
Qed.

(* a leaf is a Page dictionary whose Parent is the node it hangs under *)
Definition leaf_parent (m : objmap) (x : oid) : option oid :=
  match lookup m x with Some (ODict d) => as_ref (dict_get d K_Parent) | _ => None end.

Lemma page_tree_leaves m :
  (forall t par, page_tree m par t -> forall x, In x (leaves t) ->
     exists d, lookup m x = Some (ODict d) /\ dict_wf d /\ dict_get d K_Type = Some (OName K_Page) /\
               (leaf_parent m x = par \/ exists q, leaf_parent m x = Some q /\ In q (nodes t))) /\
  (forall f par, Forall (page_tree m par) f -> forall x, In x (flat_map leaves f) ->
     exists d, lookup m x = Some (ODict d) /\ dict_wf d /\ dict_get d K_Type = Some (OName K_Page) /\
               (leaf_parent m x = par \/ exists q, leaf_parent m x = Some q /\ In q (flat_map nodes f))).
Proof.
  apply ptree_forest_ind.
  - intros i par H x [<-|[]]. inversion H as [? ? d L W Ty Pa|]; subst. exists d.
    split; [exact L|]. split; [exact W|]. split; [exact Ty|]. left. unfold leaf_parent. rewrite L. reflexivity.
  - intros i ks Q par H x Hx. inversion H as [|? ? d ? L W Ty Kd Ct Pa F]; subst. cbn [leaves] in Hx.
    destruct (Q (Some i) F x Hx) as [dx [Lx [Wx [Tx Hp]]]]. exists dx.
    split; [exact Lx|]. split; [exact Wx|]. split; [exact Tx|]. right.
    destruct Hp as [Hp|[q [Hq Hn]]]; [exists i; split; [exact Hp | left; reflexivity]|].
    exists q. split; [exact Hq | right; exact Hn].
  - intros par _ x [].
  - intros k ks P Q par H x Hx. inversion H as [|? ? Fk Fks]; subst. cbn [flat_map] in *. apply in_app_iff in Hx.
    destruct Hx as [Hx|Hx].
    + destruct (P par Fk x Hx) as [dx [Lx [Wx [Tx Hp]]]]. exists dx. repeat (split; [assumption|]).
      destruct Hp as [Hp|[q [Hq Hn]]]; [left; exact Hp|]. right. exists q. split; [exact Hq|].
      apply in_app_iff. left. exact Hn.
    + destruct (Q par Fks x Hx) as [dx [Lx [Wx [Tx Hp]]]]. exists dx. repeat (split; [assumption|]).
      destruct Hp as [Hp|[q [Hq Hn]]]; [left; exact Hp|]. right. exists q. split; [exact Hq|].
      apply in_app_iff. right. exact Hn.
Qed.

Lemma leaves_nodup :
  (forall t, NoDup (ids t) -> NoDup (leaves t)) /\ (forall f, NoDup (flat_map ids f) -> NoDup (flat_map leaves f)).
Proof.
  apply ptree_forest_ind.
  - intros i H. exact H.
  - intros i ks Q H. cbn [ids] in H. inversion H; subst. cbn [leaves]. apply Q. assumption.
  - intros _. constructor.
  - intros k ks P Q H. cbn [flat_map] in *. apply nodup_app in H. destruct H as [Ha [Hb Hx]].
    apply nodup_app. split; [apply P; exact Ha|]. split; [apply Q; exact Hb|].
    intros x H1 H2. apply (Hx x); [apply (proj1 leaves_ids); exact H1 | apply (proj2 leaves_ids); exact H2].
Qed.

(* ---------- references inside a dictionary ---------- *)
Lemma dict_get_refs d k v x : dict_get d k = Some v -> In x (refs_of v) -> In x (refs_of_dict d).
Proof.
  unfold refs_of_dict. induction d as [|[k' v'] d IH]; cbn [dict_get flat_map snd]; [discriminate|].
  destruct (bytes_eqb k' k).
  - intro H; inversion H; subst. intro Hx. apply in_app_iff. left. exact Hx.
  - intros H Hx. apply in_app_iff. right. exact (IH H Hx).
Qed.

(* ---------- delete_object reaches every node of the tree ---------- *)
Section Reach.
  Variables (d : doc) (p : oid).
  Let m := d_objects d.
  Let tr' := del_trailer d p.
  Let g := del_graph d p.

  Lemma reach_tree :
    (forall t par, page_tree m par t -> ~ In p (nodes t) -> root_id t <> p -> reach tr' g (root_id t) ->
       forall x, In x (ids t) -> x <> p -> reach tr' g x) /\
    (forall f par, Forall (page_tree m par) f -> ~ In p (flat_map nodes f) ->
       (forall k, In k f -> root_id k <> p -> reach tr' g (root_id k)) ->
       forall x, In x (flat_map ids f) -> x <> p -> reach tr' g x).
  Proof.
    apply ptree_forest_ind.
    - intros i par _ _ _ R x [<-|[]] _. exact R.
    - intros i ks Q par PT Hn Hr R x Hx Hxp. cbn [root_id] in *. cbn [nodes] in Hn.
      destruct Hx as [<-|Hx]; [exact R|].
      inversion PT as [|? ? dd ? L W Ty Kd Ct Pa F]; subst.
      assert (Hnk : ~ In p (flat_map nodes ks)) by (intro H; apply Hn; right; exact H).
      apply (Q (Some i) F Hnk); [|exact Hx | exact Hxp].
      intros k Hk Hkp. eapply reach_step; [exact R | |].
      + unfold g, del_graph. rewrite lookup_mapv. fold m. rewrite L. cbn [option_map]. rewrite strip_dict_sd. reflexivity.
      + cbn [refs_of]. fold (refs_of_dict (sd p dd)).
        eapply dict_get_refs; [apply (sd_get p dd K_Kids _ W Kd eq_refl)|].
        rewrite strip_kids by exact Hnk. cbn [refs_of]. apply in_flat_map.
        exists (ref_of (prune p k)). split.
        * apply in_map. unfold pkids. apply in_flat_map. exists k. split; [exact Hk|].
          replace (oid_eqb (root_id k) p) with false by (symmetry; apply oid_eqb_neq; exact Hkp). left. reflexivity.
        * unfold ref_of. rewrite root_id_prune. cbn [refs_of]. left. destruct (root_id k); reflexivity.
    - intros par _ _ _ x [].
    - intros k ks P Q par F Hn R x Hx Hxp. inversion F as [|? ? Fk Fks]; subst.
      cbn [flat_map] in *. rewrite in_app_iff in Hn. apply in_app_iff in Hx. destruct Hx as [Hx|Hx].
      + assert (Hk : root_id k <> p).
        { intro E. rewrite (root_p_leaf p k) in Hx by tauto. destruct Hx as [Hx|[]]. congruence. }
        apply (P par Fk); try tauto. apply R; [left; reflexivity | exact Hk].
      + apply (Q par Fks); try tauto. intros k' Hk'. apply R. right. exact Hk'.
  Qed.
End Reach.

Lemma is_ref_to_ref_of p t : root_id t <> p -> is_ref_to p (ref_of t) = false.
Proof.
  intro H. unfold ref_of. cbn [is_ref_to]. apply oid_eqb_neq. destruct (root_id t); exact H.
Qed.

Lemma strip_ref_of p t : root_id t <> p -> strip p (ref_of t) = ref_of (prune p t).
Proof.
  intro H. pose proof (is_ref_to_ref_of p t H) as E. unfold ref_of in *. cbn [strip]. cbn [is_ref_to] in E.
  rewrite E, root_id_prune. reflexivity.
Qed.

(* after delete_object(p), p not an intermediate node and not the catalog: every other node and the catalog are stripped *)
Lemma delete_reaches d t p ci cg cat d1 r :
  doc_wf d ->
  dict_wf (d_trailer d) -> dict_get (d_trailer d) K_Root = Some (ORef ci cg) ->
  lookup (d_objects d) (ci, cg) = Some (ODict cat) -> dict_wf cat -> dict_get cat K_Pages = Some (ref_of t) ->
  page_tree (d_objects d) None t -> ~ In p (nodes t) -> root_id t <> p -> (ci, cg) <> p ->
  delete_object d p = Some (d1, r) ->
  d_trailer d1 = sd p (d_trailer d) /\
  lookup (d_objects d1) (ci, cg) = Some (ODict (sd p cat)) /\
  (forall x dx, In x (ids t) -> x <> p -> lookup (d_objects d) x = Some (ODict dx) ->
     lookup (d_objects d1) x = Some (ODict (sd p dx))) /\
  lookup (d_objects d1) p = None /\
  (r = lookup (d_objects d) p \/ r = option_map (strip p) (lookup (d_objects d) p)).
Proof.
  intros W Wt Rt Lc Wc Pg PT Hn Hr Hc E.
  destruct (delete_object_spec d p W) as [d1' [r' [E' [T1 [_ [Lid [L1 [_ Hres]]]]]]]].
  rewrite E in E'. inversion E'; subst d1' r'. clear E'.
  assert (Rc : reach (del_trailer d p) (del_graph d p) (ci, cg)).
  { apply reach_root. unfold del_trailer. change (strip_trailer p (d_trailer d)) with (sd p (d_trailer d)).
    eapply dict_get_refs; [apply (sd_get p _ K_Root _ Wt Rt)|].
    - cbn [is_ref_to]. apply oid_eqb_neq. exact Hc.
    - cbn [strip]. replace (oid_eqb (ci, cg) p) with false by (symmetry; apply oid_eqb_neq; exact Hc).
      left. reflexivity. }
  assert (Rr : reach (del_trailer d p) (del_graph d p) (root_id t)).
  { eapply reach_step; [exact Rc | |].
    - unfold del_graph. rewrite lookup_mapv, Lc. cbn [option_map]. rewrite strip_dict_sd. reflexivity.
    - cbn [refs_of]. fold (refs_of_dict (sd p cat)).
      eapply dict_get_refs; [apply (sd_get p cat K_Pages _ Wc Pg (is_ref_to_ref_of p t Hr))|].
      rewrite strip_ref_of by exact Hr. unfold ref_of. rewrite root_id_prune. cbn [refs_of]. left.
      destruct (root_id t); reflexivity. }
  split; [exact T1|]. split; [|split; [|split; [exact Lid | exact Hres]]].
  - rewrite (L1 _ Hc Rc), Lc. cbn [option_map]. rewrite strip_dict_sd. reflexivity.
  - intros x dx Hx Hxp Lx.
    rewrite (L1 x Hxp (proj1 (reach_tree d p) t None PT Hn Hr Rr x Hx Hxp)), Lx.
    cbn [option_map]. rewrite strip_dict_sd. reflexivity.
Qed.

(* the Count / Parent bookkeeping of t in the stripped map *)
Lemma page_count_tree m m1 p T :
  (forall x dx, In x (ids T) -> x <> p -> lookup m x = Some (ODict dx) -> lookup m1 x = Some (ODict (sd p dx))) ->
  (forall t par, incl (ids t) (ids T) -> page_tree m par t -> ~ In p (nodes t) -> par <> Some p ->
     count_tree m1 (leaf_parent m) par t) /\
  (forall f par, incl (flat_map ids f) (ids T) -> Forall (page_tree m par) f -> ~ In p (flat_map nodes f) ->
     par <> Some p -> Forall (count_tree m1 (leaf_parent m) par) f).
Proof.
  intro M1. apply ptree_forest_ind.
  - intros i par _ PT _ _. inversion PT as [? ? dd L W Ty Pa|]; subst. constructor.
    unfold leaf_parent. rewrite L. reflexivity.
  - intros i ks Q par Hi PT Hn Hpar. inversion PT as [|? ? dd ? L W Ty Kd Ct Pa F]; subst. cbn [nodes] in Hn.
    assert (Hip : i <> p) by (intro E; apply Hn; left; exact E).
    eapply CTNode.
    + apply M1; [apply Hi; left; reflexivity | exact Hip | exact L].
    + unfold count_of. rewrite (sd_get_int p dd K_Count _ W Ct). reflexivity.
    + rewrite parent_ref_as_ref in *. apply sd_parent; assumption.
    + apply Q; [intros x Hx; apply Hi; right; exact Hx | exact F | intro H; apply Hn; right; exact H|].
      intro E. inversion E. exact (Hip H0).
  - intros par _ _ _ _. constructor.
  - intros k ks P Q par Hi F Hn Hpar. inversion F as [|? ? Fk Fks]; subst. cbn [flat_map] in *.
    apply incl_app_inv in Hi. destruct Hi as [Hik Hiks]. rewrite in_app_iff in Hn.
    constructor; [apply P | apply Q]; tauto.
Qed.

(* ---------- from the maps to page_doc ---------- *)
Lemma page_doc_after d t p ci cg cat d2 :
  dict_wf (d_trailer d) -> dict_get (d_trailer d) K_Root = Some (ORef ci cg) ->
  lookup (d_objects d) (ci, cg) = Some (ODict cat) -> dict_wf cat -> dict_get cat K_Pages = Some (ref_of t) ->
  is_node t -> page_tree (d_objects d) None t -> NoDup (ids t) -> ~ In (ci, cg) (ids t) ->
  ~ In p (nodes t) -> (ci, cg) <> p ->
  d_trailer d2 = sd p (d_trailer d) ->
  lookup (d_objects d2) (ci, cg) = Some (ODict (sd p cat)) ->
  (forall x dx, In x (ids t) -> x <> p -> lookup (d_objects d) x = Some (ODict dx) ->
     lookup (d_objects d2) x = Some (ODict (adj (mem_oid x (chain p t)) (sd p dx)))) ->
  page_doc d2 (prune p t).
Proof.
  intros Wt Rt Lc Wc Pg Nd PT ND Hc Hn Hcp T2 Lc2 H2.
  assert (Hr : root_id t <> p).
  { destruct t as [i|i ks]; [destruct Nd|]. cbn [root_id nodes] in *. intro E. apply Hn. left. exact E. }
  exists ci, cg, (sd p cat).
  split; [unfold unique_keys; rewrite T2; apply sd_wf; exact Wt|].
  split; [rewrite T2, (sd_get p _ K_Root _ Wt Rt)|].
  { cbn [strip]. replace (oid_eqb (ci, cg) p) with false by (symmetry; apply oid_eqb_neq; exact Hcp). reflexivity. }
  { cbn [is_ref_to]. apply oid_eqb_neq. exact Hcp. }
  split; [exact Lc2|]. split; [apply sd_wf; exact Wc|].
  split; [rewrite (sd_get p cat K_Pages _ Wc Pg (is_ref_to_ref_of p t Hr)), strip_ref_of by exact Hr; reflexivity|].
  split; [destruct t; [destruct Nd | exact I]|].
  split; [|split].
  - apply (proj1 (prune_page_tree (d_objects d) (d_objects d2) p (chain p t) t H2
                    (fun x Hx => proj1 (page_tree_nodes (d_objects d)) t None PT x (proj1 (chain_nodes p) t x Hx)))).
    + apply incl_refl.
    + exact PT.
    + apply (proj1 (chain_marks p)); [exact ND | intros; tauto].
    + exact Hn.
    + apply (proj1 leaves_nodup). exact ND.
    + discriminate.
    + exact Hr.
  - rewrite (proj1 (prune_ids p) t Hn Hr). apply without_nodup. exact ND.
  - rewrite (proj1 (prune_ids p) t Hn Hr). intro H. apply without_In in H. tauto.
Qed.

(* ---------- one round of delete_pages' loop ---------- *)
Lemma dec_all_keys l : forall m, map fst (dec_all m l) = map fst m.
Proof.
  induction l as [|a l IH]; intro m; cbn [dec_all fold_left]; [reflexivity|]. fold (dec_all (dec_one m a) l).
  rewrite IH. destruct a as [[id dd] [c|]]; cbn [dec_one]; [apply keys_update | reflexivity].
Qed.

Lemma lookup_none_keys m m' x : map fst m' = map fst m -> lookup m x = None -> lookup m' x = None.
Proof. intros K H. apply lookup_none. apply lookup_none in H. unfold has_obj in *. rewrite K. exact H. Qed.

Lemma delete_page_step d t p :
  doc_wf d -> page_doc d t -> (In p (leaves t) \/ lookup (d_objects d) p = None) ->
  exists d2,
    (forall pages n ns, assoc_N pages n = Some p ->
       delete_pages_loop pages (n :: ns) d = delete_pages_loop pages ns d2) /\
    doc_wf d2 /\ page_doc d2 (prune p t) /\
    leaves (prune p t) = without p (leaves t) /\
    lookup (d_objects d2) p = None /\
    (forall x, lookup (d_objects d) x = None -> lookup (d_objects d2) x = None).
Proof.
  intros W [ci [cg [cat [Wt [Rt [Lc [Wc [Pg [Nd [PT [ND Hc]]]]]]]]]]] Hp.
  set (m := d_objects d) in *.
  (* p is no intermediate node, nor the catalog *)
  assert (Hn : ~ In p (nodes t)).
  { intro H. destruct (proj1 (page_tree_nodes m) t None PT p H) as [dn [Ln Tn]].
    destruct Hp as [Hp|Hp]; [|congruence].
    destruct (proj1 (page_tree_leaves m) t None PT p Hp) as [dl [Ll [_ [Tl _]]]].
    rewrite Ln in Ll. inversion Ll; subst dl. rewrite Tn in Tl. discriminate Tl. }
  assert (Hcp : (ci, cg) <> p).
  { intro E. subst p. destruct Hp as [Hp|Hp]; [|unfold m in *; congruence].
    apply Hc. apply (proj1 leaves_ids). exact Hp. }
  assert (Hr : root_id t <> p).
  { destruct t as [i|i ks]; [destruct Nd|]. cbn [root_id nodes] in *. intro E. apply Hn. left. exact E. }
  destruct (delete_object d p) as [[d1 r]|] eqn:E; [|exfalso; exact (delete_object_total d p W E)].
  destruct (delete_reaches d t p ci cg cat d1 r W Wt Rt Lc Wc Pg PT Hn Hr Hcp E) as [T1 [Lc1 [M1 [Lp1 Hres]]]].
  destruct (delete_object_keys d p d1 r E) as [K1 [_ W1]]. specialize (W1 W).
  assert (None1 : forall x, lookup m x = None -> lookup (d_objects d1) x = None).
  { intros x H. apply lookup_none. intro Hh. apply K1 in Hh. apply lookup_none in H. exact (H Hh). }
  destruct Hp as [Hp|Hp].
  - (* p is a leaf: the Count loop runs up its Parent chain *)
    destruct (proj1 (page_tree_leaves m) t None PT p Hp) as [pd [Lp [Wp [_ Hpar]]]].
    assert (Hlp : leaf_parent m p <> Some p).
    { destruct Hpar as [Hpar|[q [Hq Hqn]]]; [rewrite Hpar; discriminate|]. rewrite Hq. intro E1. inversion E1. congruence. }
    assert (Hlp' : as_ref (dict_get pd K_Parent) = leaf_parent m p) by (unfold leaf_parent; rewrite Lp; reflexivity).
    (* the returned page object: its Parent entry is the one the page had *)
    assert (Hpage : exists pd', r = Some (ODict pd') /\ as_ref (dict_get pd' K_Parent) = leaf_parent m p).
    { fold m in Hres. rewrite Lp in Hres. destruct Hres as [->| ->].
      - exists pd. split; [reflexivity | exact Hlp'].
      - cbn [option_map]. rewrite strip_dict_sd. exists (sd p pd). split; [reflexivity|].
        rewrite <- Hlp'. apply sd_parent; [exact Wp | rewrite Hlp'; exact Hlp]. }
    destruct Hpage as [pd' [-> Hpd']].
    pose proof (proj1 (page_count_tree m (d_objects d1) p t M1) t None (incl_refl _) PT Hn (fun H => ltac:(discriminate H)))
      as CT.
    destruct (proj1 (chain_anc (d_objects d1) (leaf_parent m) p) t None [] CT (proj1 leaves_nodup t ND) Hp (ac_none _))
      as [ancs [An Ai]].
    rewrite app_nil_r in An.
    assert (NDa : NoDup (map anc_id ancs)) by (rewrite Ai; apply (proj1 (chain_nodup p)); exact ND).
    pose proof (count_loop_chain (d_objects d1) _ ancs _ An NDa (anc_chain_fuel _ _ _ An NDa)) as CL.
    exists (with_objs d1 (dec_all (d_objects d1) ancs)).
    split; [|split; [|split; [|split; [|split]]]].
    + intros pages n ns Ha. cbn [delete_pages_loop]. rewrite Ha, E. rewrite EditProofsRes.dereference_dict. rewrite Hpd', CL. reflexivity.
    + unfold doc_wf. cbn [with_objs d_objects]. unfold sorted_keys. rewrite dec_all_keys. exact W1.
    + apply (page_doc_after d t p ci cg cat); try assumption.
      * cbn [with_objs d_objects]. rewrite dec_all_other; [exact Lc1|].
        rewrite Ai. intro H. apply Hc. apply chain_ids with p. exact H.
      * intros x dx Hx Hxp Lx. cbn [with_objs d_objects]. pose proof (M1 x dx Hx Hxp Lx) as Lx1.
        destruct (mem_oid x (chain p t)) eqn:Em.
        -- apply mem_oid_In in Em. rewrite <- Ai in Em. apply in_map_iff in Em. destruct Em as [[[x' d'] c'] [Ex Hin]].
           cbn [anc_id fst] in Ex. subst x'. destruct (anc_chain_In _ _ _ An _ _ _ Hin) as [Lx' Hc'].
           rewrite Lx1 in Lx'. inversion Lx'; subst d'.
           rewrite (dec_all_member ancs _ x (sd p dx) c' NDa Hin Lx1). subst c'. reflexivity.
        -- apply mem_oid_nIn in Em. rewrite dec_all_other by (rewrite Ai; exact Em). exact Lx1.
    + apply (proj1 (prune_leaves p)); assumption.
    + cbn [with_objs d_objects]. apply (lookup_none_keys (d_objects d1)); [apply dec_all_keys | exact Lp1].
    + intros x H. cbn [with_objs d_objects]. apply (lookup_none_keys (d_objects d1)); [apply dec_all_keys | exact (None1 x H)].
  - (* p names no object any more: nothing is returned, the Count loop is skipped *)
    assert (Hr' : r = None) by (fold m in Hres; rewrite Hp in Hres; destruct Hres as [->| ->]; reflexivity). subst r.
    assert (Hnl : ~ In p (leaves t)).
    { intro H. destruct (proj1 (page_tree_leaves m) t None PT p H) as [dl [Ll _]]. congruence. }
    exists d1. split; [|split; [exact W1|split; [|split; [|split; [exact Lp1 | exact None1]]]]].
    + intros pages n ns Ha. cbn [delete_pages_loop]. rewrite Ha, E. reflexivity.
    + apply (page_doc_after d t p ci cg cat); try assumption.
      intros x dx Hx Hxp Lx. rewrite chain_nil by exact Hnl. cbn [mem_oid existsb adj]. exact (M1 x dx Hx Hxp Lx).
    + apply (proj1 (prune_leaves p)); assumption.
Qed.

(* ---------- the loop: numbers refer to the page map computed before the first deletion ---------- *)
Definition sel (pages : list (N * oid)) (ns : list N) : list oid :=
  flat_map (fun n => match assoc_N pages n with Some p => [p] | None => [] end) ns.

Lemma delete_pages_loop_tree pages : forall ns d t,
  doc_wf d -> page_doc d t ->
  (forall n p, assoc_N pages n = Some p -> In p (leaves t) \/ lookup (d_objects d) p = None) ->
  exists d', delete_pages_loop pages ns d = (d', LOk) /\ doc_wf d' /\
             page_doc d' (prune_all (sel pages ns) t) /\
             leaves (prune_all (sel pages ns) t) = fold_left (fun l p => without p l) (sel pages ns) (leaves t).
Proof.
  induction ns as [|n ns IH]; intros d t W PD Inv.
  - exists d. repeat split; assumption.
  - unfold sel. cbn [flat_map]. fold (sel pages ns). destruct (assoc_N pages n) as [p|] eqn:Ea.
    + destruct (delete_page_step d t p W PD (Inv n p Ea)) as [d2 [Hstep [W2 [PD2 [Lv [Lp2 None2]]]]]].
      rewrite (Hstep pages n ns Ea). cbn [app]. unfold prune_all. cbn [fold_left]. fold (prune_all (sel pages ns) (prune p t)).
      rewrite <- Lv. apply IH; [exact W2 | exact PD2|].
      intros n' p' Ea'. destruct (Inv n' p' Ea') as [H|H]; [|right; apply None2; exact H].
      destruct (oid_eq_dec p' p) as [->|Hne]; [right; exact Lp2|].
      left. rewrite Lv. apply without_In. split; assumption.
    + cbn [delete_pages_loop]. rewrite Ea. cbn [app]. apply IH; assumption.
Qed.

(* ---------- lists: the numbering ---------- *)
Lemma fold_without ps : forall l, fold_left (fun l p => without p l) ps l = filter (fun x => negb (mem_oid x ps)) l.
Proof.
  induction ps as [|p ps IH]; intro l; cbn [fold_left].
  - cbn [mem_oid existsb negb]. induction l as [|x l IHl]; [reflexivity|]. cbn [filter]. f_equal. exact IHl.
  - rewrite IH. unfold without. induction l as [|x l IHl]; [reflexivity|]. cbn [filter mem_oid existsb].
    destruct (oid_eqb x p); cbn [negb orb]; [exact IHl|]. cbn [filter]. fold (mem_oid x ps).
    destruct (negb (mem_oid x ps)); [f_equal|]; exact IHl.
Qed.

Lemma assoc_N_In {A} (l : list (N * A)) n x : assoc_N l n = Some x -> In (n, x) l.
Proof.
  induction l as [|[k v] l IH]; cbn [assoc_N]; [discriminate|].
  destruct (k =? n)%N eqn:E; [apply N.eqb_eq in E; subst; intro H; inversion H; left; reflexivity|].
  intro H. right. exact (IH H).
Qed.

Lemma In_assoc_N {A} (l : list (N * A)) n x : NoDup (map fst l) -> In (n, x) l -> assoc_N l n = Some x.
Proof.
  induction l as [|[k v] l IH]; cbn [assoc_N map fst]; intros ND Hin; [destruct Hin|].
  inversion ND as [|? ? Hn Hd]; subst. destruct Hin as [H|H].
  - inversion H; subst. rewrite N.eqb_refl. reflexivity.
  - destruct (k =? n)%N eqn:E; [|exact (IH Hd H)]. apply N.eqb_eq in E. subst k. exfalso. apply Hn.
    apply in_map_iff. exists (n, x). split; [reflexivity | exact H].
Qed.

Lemma snd_unique {A B} (l : list (A * B)) a b x : NoDup (map snd l) -> In (a, x) l -> In (b, x) l -> a = b.
Proof.
  induction l as [|[k v] l IH]; cbn [map snd]; intros ND H1 H2; [destruct H1|].
  inversion ND as [|? ? Hn Hd]; subst.
  destruct H1 as [H1|H1], H2 as [H2|H2].
  - congruence.
  - inversion H1; subst. exfalso. apply Hn. apply in_map_iff. exists (b, x). split; [reflexivity | exact H2].
  - inversion H2; subst. exfalso. apply Hn. apply in_map_iff. exists (a, x). split; [reflexivity | exact H1].
  - exact (IH Hd H1 H2).
Qed.

Lemma number_from_fst : forall l s n x, In (n, x) (number_from s l) -> (s <= n)%N.
Proof.
  induction l as [|y l IH]; intros s n x H; cbn [number_from] in H; [destruct H|].
  destruct H as [H|H]; [inversion H; lia|]. apply IH in H. lia.
Qed.

Lemma number_from_nodup : forall l s, NoDup (map fst (number_from s l)).
Proof.
  induction l as [|y l IH]; intro s; cbn [number_from map fst]; constructor; [|apply IH].
  intro H. apply in_map_iff in H. destruct H as [[n x] [E H]]. cbn [fst] in E. subst n.
  apply number_from_fst in H. lia.
Qed.

Lemma number_from_snd : forall l s, map snd (number_from s l) = l.
Proof. induction l as [|y l IH]; intro s; cbn [number_from map snd]; [reflexivity|]. rewrite IH. reflexivity. Qed.

Lemma map_filter_snd {A} (g : oid -> bool) (l : list (A * oid)) :
  map snd (filter (fun np => g (snd np)) l) = filter g (map snd l).
Proof.
  induction l as [|[a x] l IH]; [reflexivity|]. cbn [filter map snd]. destruct (g x); cbn [map snd]; rewrite IH; reflexivity.
Qed.

Lemma sel_In pages ns x : In x (sel pages ns) <-> exists n, In n ns /\ assoc_N pages n = Some x.
Proof.
  unfold sel. rewrite in_flat_map. split.
  - intros [n [Hn H]]. exists n. split; [exact Hn|]. destruct (assoc_N pages n) as [q|]; [|destruct H].
    destruct H as [->|[]]. reflexivity.
  - intros [n [Hn H]]. exists n. split; [exact Hn|]. rewrite H. left. reflexivity.
Qed.

Lemma existsb_Neqb n ns : existsb (N.eqb n) ns = true <-> In n ns.
Proof.
  rewrite existsb_exists. split; [intros [x [H E]]; apply N.eqb_eq in E; subst; exact H|].
  intro H. exists n. split; [exact H | apply N.eqb_refl].
Qed.

(* the pages left: the old list without the entries whose NUMBER is in ns *)
Lemma remaining_pages pages ns :
  NoDup (map fst pages) -> NoDup (map snd pages) ->
  filter (fun x => negb (mem_oid x (sel pages ns))) (map snd pages) =
  map snd (filter (fun np => negb (existsb (N.eqb (fst np)) ns)) pages).
Proof.
  intros N1 N2. rewrite <- map_filter_snd. f_equal. apply filter_ext_in. intros [n x] Hin. cbn [fst snd]. f_equal.
  destruct (existsb (N.eqb n) ns) eqn:E.
  - apply existsb_Neqb in E. apply mem_oid_In. apply sel_In. exists n. split; [exact E|].
    apply In_assoc_N; assumption.
  - apply mem_oid_nIn. intro H. apply sel_In in H. destruct H as [n' [Hn' Ha]].
    apply assoc_N_In in Ha. rewrite (snd_unique pages n n' x N2 Hin Ha) in E.
    apply existsb_Neqb in Hn'. congruence.
Qed.

(* ---------- page_doc and C12 ---------- *)
Lemma page_doc_tree_wf d t : page_doc d t -> tree_wf d t /\ counts_exact (d_objects d) t.
Proof.
  intros [ci [cg [cat [_ [_ [_ [_ [_ [_ [PT [ND _]]]]]]]]]]].
  split; [split; [exact (proj1 (page_tree_represents _) t None PT) | exact ND]|].
  exact (proj1 (page_tree_counts _) t None PT).
Qed.

Lemma page_doc_iter d t :
  page_doc d t -> (N.of_nat (height t) <= PAGE_TREE_DEPTH_LIMIT + 1)%N -> page_iter d = leaves t.
Proof.
  intros PD Hh. pose proof (proj1 (page_doc_tree_wf d t PD)) as TW.
  destruct PD as [ci [cg [cat [_ [Rt [Lc [_ [Pg [Nd _]]]]]]]]].
  destruct t as [i|[i g] ks]; [destruct Nd|].
  apply (page_iter_dfs d cat i g ks); [|exact Pg | exact TW | exact Hh].
  unfold catalog. rewrite Rt. apply lookup_get_dictionary. exact Lc.
Qed.

Lemma prune_all_height ps : forall t, height (prune_all ps t) <= height t.
Proof.
  induction ps as [|p ps IH]; intro t; [apply le_n|]. unfold prune_all. cbn [fold_left].
  fold (prune_all ps (prune p t)). pose proof (IH (prune p t)). pose proof (proj1 (prune_height p) t). lia.
Qed.

(* ---------- delete_pages ---------- *)
Theorem delete_pages_tree d t ns :
  doc_wf d -> page_doc d t -> (N.of_nat (height t) <= PAGE_TREE_DEPTH_LIMIT + 1)%N ->
  exists d',
    delete_pages d ns = (d', LOk) /\ doc_wf d' /\
    page_doc d' (prune_all (sel (get_pages d) ns) t) /\
    page_iter d = leaves t /\
    page_iter d' = leaves (prune_all (sel (get_pages d) ns) t) /\
    page_iter d' = map snd (filter (fun np => negb (existsb (N.eqb (fst np)) ns)) (get_pages d)).
Proof.
  intros W PD Hh. pose proof (page_doc_iter d t PD Hh) as It.
  assert (ND : NoDup (leaves t)).
  { destruct PD as [ci [cg [cat [_ [_ [_ [_ [_ [_ [_ [ND _]]]]]]]]]]]. apply (proj1 leaves_nodup). exact ND. }
  destruct (delete_pages_loop_tree (get_pages d) ns d t W PD) as [d' [E [W' [PD' Lv]]]].
  { intros n p Ha. left. apply assoc_N_In in Ha. unfold get_pages in Ha. rewrite It in Ha.
    apply (in_map snd) in Ha. rewrite number_from_snd in Ha. exact Ha. }
  exists d'. split; [exact E|]. split; [exact W'|]. split; [exact PD'|]. split; [exact It|].
  assert (It' : page_iter d' = leaves (prune_all (sel (get_pages d) ns) t)).
  { apply page_doc_iter; [exact PD'|]. pose proof (prune_all_height (sel (get_pages d) ns) t). lia. }
  split; [exact It'|].
  assert (Gp : get_pages d = number_from 1 (leaves t)) by (unfold get_pages; rewrite It; reflexivity).
  rewrite It', Lv, fold_without, Gp.
  assert (N2 : NoDup (map snd (number_from 1 (leaves t)))) by (rewrite number_from_snd; exact ND).
  pose proof (remaining_pages (number_from 1 (leaves t)) ns (number_from_nodup _ _) N2) as R.
  rewrite number_from_snd in R. exact R.
Qed.

(* ---------- non-vacuity: a three-level tree; page 2 hangs under an inner node, numbers 2 (twice) and 9 (no such page) ---------- *)
Definition K_Catalog' := Eval cbv in bs "Catalog".
Definition tree_doc : doc :=
  let pg (q : N) := ODict [(K_Type, OName K_Page); (K_Parent, ORef q 0)] in
  {| d_version := bs "1.5"; d_binary_mark := []; d_max_id := 6;
     d_trailer := [(K_Root, ORef 1 0)];
     d_objects := [((1,0), ODict [(K_Type, OName K_Catalog'); (K_Pages, ORef 2 0)]);
                   ((2,0), ODict [(K_Type, OName K_Pages); (K_Kids, OArr [ORef 3 0; ORef 4 0; ORef 6 0]); (K_Count, OInt 3)]);
                   ((3,0), pg 2);
                   ((4,0), ODict [(K_Type, OName K_Pages); (K_Parent, ORef 2 0); (K_Kids, OArr [ORef 5 0]); (K_Count, OInt 1)]);
                   ((5,0), pg 4);
                   ((6,0), pg 2)]%N |}.
Definition tree_ex : ptree := PNode (2,0)%N [PLeaf (3,0)%N; PNode (4,0)%N [PLeaf (5,0)%N]; PLeaf (6,0)%N].

Lemma tree_example :
  doc_wf tree_doc /\ page_doc tree_doc tree_ex /\ (N.of_nat (height tree_ex) <= PAGE_TREE_DEPTH_LIMIT + 1)%N /\
  get_pages tree_doc = [(1, (3,0)); (2, (5,0)); (3, (6,0))]%N /\
  prune_all (sel (get_pages tree_doc) [2; 2; 9]%N) tree_ex = PNode (2,0)%N [PLeaf (3,0)%N; PNode (4,0)%N []; PLeaf (6,0)%N] /\
  page_iter (fst (delete_pages tree_doc [2; 2; 9]%N)) = [(3,0); (6,0)]%N.
Proof.
  split; [unfold doc_wf, sorted_keys; cbn; repeat constructor|].
  split.
  { exists 1%N, 0%N. eexists. split; [unfold unique_keys; cbn; repeat constructor; intros []|].
    split; [reflexivity|]. split; [reflexivity|].
    split; [unfold unique_keys; cbn; repeat constructor; cbn; intuition discriminate|].
    split; [reflexivity|]. split; [exact I|]. split; [|split].
    - unfold tree_ex.
      eapply PTNode; [reflexivity | unfold unique_keys; cbn; repeat constructor; cbn; intuition discriminate
                     | reflexivity | reflexivity | reflexivity | reflexivity|].
      repeat constructor.
      + eapply PTLeaf; [reflexivity | unfold unique_keys; cbn; repeat constructor; cbn; intuition discriminate
                       | reflexivity | reflexivity].
      + eapply PTNode; [reflexivity | unfold unique_keys; cbn; repeat constructor; cbn; intuition discriminate
                       | reflexivity | reflexivity | reflexivity | reflexivity|].
        repeat constructor.
        eapply PTLeaf; [reflexivity | unfold unique_keys; cbn; repeat constructor; cbn; intuition discriminate
                       | reflexivity | reflexivity].
      + eapply PTLeaf; [reflexivity | unfold unique_keys; cbn; repeat constructor; cbn; intuition discriminate
                       | reflexivity | reflexivity].
    - cbn. repeat constructor; cbn; intuition discriminate.
    - cbn. intuition discriminate. }
  split; [vm_compute; discriminate|].
  split; [vm_compute; reflexivity|]. split; vm_compute; reflexivity.
Qed.
